package sx

import (
	"context"
	"crypto/sha256"
	"encoding/hex"
	"encoding/json"
	"fmt"
	"io"
	"regexp"
	"sort"
	"strconv"
	"strings"
	"testing"
	"testing/synctest"
	"time"

	"github.com/jdillenkofer/pithos/internal/storage"
	"github.com/jdillenkofer/pithos/internal/storage/database"
	"github.com/jdillenkofer/pithos/internal/storage/metadatapart/partstore"
	"github.com/jdillenkofer/pithos/verif/mc/ev"
	"github.com/jdillenkofer/pithos/verif/mc/fault"
	"github.com/jdillenkofer/pithos/verif/mc/pmap"
	"github.com/jdillenkofer/pithos/verif/mc/world"
)

// Spec describes one explicit-state search: universe, alphabet, asserted aspects, extra oracles.
type Spec struct {
	Name    string
	Buckets []string
	Keys    []string
	// Alphabet returns the operations enabled in model state m (coordinator side; pure).
	Alphabet func(m *Model, stack string) []Op
	// Assert lists the diff classes that are violations of the property under check. Diffs of
	// other classes are counted as "unasserted" (they belong to other properties' checks) and the
	// state is still not expanded, because model and implementation no longer agree.
	Assert map[string]bool
	// Immutability enables the per-transition frozen-version oracle (C13).
	Immutability bool
	// NoTrace enables the failed-operation-leaves-no-trace oracle (C03).
	NoTrace bool
	// Step is the virtual time that passes before every operation (default 1s).
	Step time.Duration
	// World builds the world for a stack (default: world.New(world.Config{Stack: stack})).
	World func(stack string) *world.World
	// Under returns the storage the driver talks to (default: w.Storage).
	Under func(w *world.World) storage.Storage
	// Faults enables fault enumeration for every transition: the op is re-run once per fault
	// site it touches (part-store calls, write-transaction begin, commit, body reads) with that
	// site failing. FaultOracle is evaluated on each such run (default: no-trace oracle).
	Faults      bool
	FaultOracle func(c *StepCtx, preDB, postDB string) []Diff
	// LenientResultVID: a write result that carries no version id is not compared with the
	// model's id (asynchronous layers cannot know it); the id is still checked by observation.
	LenientResultVID bool
	// PreObserveKey (optional) contributes to the state key something that the observation after
	// the step destroys (e.g. the pending outbox entries, which blocked reads drain).
	PreObserveKey func(c *StepCtx) string
	// EnvOps: further environment actions by op kind (no storage call, no model change).
	EnvOps map[string]func(w *world.World, under storage.Storage)
	// WorkerStep executes the environment action "one background worker pass".
	WorkerStep func(w *world.World, under storage.Storage)
	// Extra is an additional oracle evaluated in the worker after the last op.
	Extra func(c *StepCtx) []Diff
	// Classify maps a diff to the finding class used for known-findings matching (default: class:field).
	Classify func(d Diff, c *StepCtx) string
}

// StepCtx is what extra oracles see.
type StepCtx struct {
	Spec   *Spec
	Stack  string
	W      *world.World
	D      *Driver
	M      *Model // state after the op
	Path   []Op
	Op     Op
	ImplR  Res
	ModelR Res
	Pre    Obs
	Post   Obs
}

var specs = map[string]*Spec{}

func Register(s *Spec) {
	if s.Step == 0 {
		s.Step = time.Second
	}
	specs[s.Name] = s
}

type job struct {
	Spec  string `json:"spec"`
	Stack string `json:"stack"`
	Path  []Op   `json:"path"`
	Hints []Res  `json:"hints"`
	Op    *Op    `json:"op,omitempty"` // nil: just compute the key of the state reached by Path
}

type stepResult struct {
	Key     string   `json:"key"`
	Res     Res      `json:"res"`
	Diffs   []Diff   `json:"diffs,omitempty"`
	Classes []string `json:"classes,omitempty"` // finding class per diff
	Trace   string   `json:"trace,omitempty"`   // replay divergence: harness error, not a violation
	// Diverged: the model and the implementation disagree about the result or the state (successors are not explored)
	Diverged bool `json:"diverged,omitempty"`
	// fault enumeration counters
	FaultRuns   int            `json:"fault_runs,omitempty"`
	FaultFailed int            `json:"fault_failed,omitempty"` // runs in which the op returned an error
	FaultSites  map[string]int `json:"fault_sites,omitempty"`
	FaultLeaks  int            `json:"fault_leaks,omitempty"` // runs after which goroutines of the operation stayed blocked for ever
}

var vidRe = regexp.MustCompile(`"v(\d+)"`)

func renumberVIDs(s string) string {
	seen := map[int]bool{}
	for _, m := range vidRe.FindAllStringSubmatch(s, -1) {
		n, _ := strconv.Atoi(m[1])
		seen[n] = true
	}
	ords := make([]int, 0, len(seen))
	for n := range seen {
		ords = append(ords, n)
	}
	sort.Ints(ords)
	rank := map[int]int{}
	for i, n := range ords {
		rank[n] = i + 1
	}
	return vidRe.ReplaceAllStringFunc(s, func(m string) string {
		n, _ := strconv.Atoi(m[2 : len(m)-1])
		return fmt.Sprintf("\"v%d\"", rank[n])
	})
}

func zeroLastMod(o Obs) Obs {
	c := Obs{}
	for _, b := range o.Buckets {
		nb := b
		nb.Versions = append([]OVersion{}, b.Versions...)
		for i := range nb.Versions {
			nb.Versions[i].LastMod = 0
		}
		c.Buckets = append(c.Buckets, nb)
	}
	c.Probes = append([]OProbe{}, o.Probes...)
	for i := range c.Probes {
		c.Probes[i].LastMod = 0
	}
	return c
}

// modelKey renders the model's state including its hidden write order.
func modelKey(m *Model, buckets, keys []string) string {
	b, _ := json.Marshal(m.Observe(buckets, keys))
	var sb strings.Builder
	sb.Write(b)
	for _, bn := range m.BucketNames() {
		bk := m.Buckets[bn]
		ks := make([]string, 0, len(bk.Keys))
		for k := range bk.Keys {
			ks = append(ks, k)
		}
		sort.Strings(ks)
		for _, k := range ks {
			vs := append([]*MVersion{}, bk.Keys[k]...)
			sort.Slice(vs, func(i, j int) bool { return vs[i].Seq < vs[j].Seq })
			fmt.Fprintf(&sb, "|%s/%s:", bn, k)
			for _, v := range vs {
				fmt.Fprintf(&sb, "\"%s\",", v.VID)
			}
		}
	}
	return sb.String()
}

// RunStep executes one job inside a bubble. Exported for replay.
func RunStep(t *testing.T, j job) (res stepResult) {
	spec := specs[j.Spec]
	if spec == nil {
		panic("unknown spec " + j.Spec)
	}
	synctest.Test(t, func(t *testing.T) {
		var w *world.World
		if spec.World != nil {
			w = spec.World(j.Stack)
		} else {
			w = world.New(world.Config{Stack: j.Stack})
		}
		defer w.Destroy()
		st := w.Storage
		if spec.Under != nil {
			st = spec.Under(w)
		}
		d := NewDriver(st)
		m := NewModel()
		// envOp handles environment actions that are not storage calls. "Remap": close the
		// world and reopen the same directory with another storage-class -> store mapping.
		envOp := func(op Op) (Res, bool) {
			if op.Kind == "WorkerStep" && spec.WorkerStep != nil {
				spec.WorkerStep(w, d.S)
				m.Step++
				return Res{}, true
			}
			if f := spec.EnvOps[op.Kind]; f != nil {
				f(w, d.S)
				m.Step++
				return Res{}, true
			}
			if op.Kind != "Remap" {
				return Res{}, false
			}
			cfg := w.Cfg
			cfg.Dir = w.Dir
			cfg.ClassMap = parseKV(op.Get("map"))
			if cfg.ClassMap == nil {
				cfg.ClassMap = map[string]string{}
			}
			w.Close()
			*w = *world.New(cfg)
			d.S = w.Storage
			if spec.Under != nil {
				d.S = spec.Under(w)
			}
			m.Step++
			return Res{}, true
		}
		for i, op := range j.Path {
			time.Sleep(spec.Step)
			if _, ok := envOp(op); ok {
				continue
			}
			ri := d.Apply(op, m)
			rm := m.Apply(op, &ri)
			if i < len(j.Hints) {
				if a, b := resKey(ri), resKey(j.Hints[i]); a != b {
					res.Trace = fmt.Sprintf("replay divergence at step %d (%s): now %s, before %s", i, op.Short(), a, b)
					return
				}
			}
			_ = rm
		}
		ctx := &StepCtx{Spec: spec, Stack: j.Stack, W: w, D: d, M: m, Path: j.Path}
		var preHidden string
		if j.Op != nil {
			if spec.Immutability || spec.NoTrace {
				ctx.Pre, _ = d.Observe(spec.Buckets, spec.Keys)
			}
			if spec.NoTrace {
				h, err := DumpHidden(context.Background(), w.RawDB, nil)
				if err != nil {
					res.Trace = "dump: " + err.Error()
					return
				}
				preHidden = h
			}
			time.Sleep(spec.Step)
			ctx.Op = *j.Op
			if _, ok := envOp(*j.Op); !ok {
				ctx.ImplR = d.Apply(*j.Op, m)
				ctx.ModelR = m.Apply(*j.Op, &ctx.ImplR)
			}
			res.Res = ctx.ImplR
			mr := ctx.ModelR
			if spec.LenientResultVID && ctx.ImplR.VID == "" {
				mr.VID = ""
				mr.ETag = ""
				mr.Ck, mr.CkOpt = nil, nil
			}
			res.Diffs = append(res.Diffs, DiffRes(*j.Op, mr, ctx.ImplR)...)
			res.Diverged = len(res.Diffs) > 0
		}
		var idiffs []Diff
		preKey := ""
		if spec.PreObserveKey != nil {
			preKey = spec.PreObserveKey(ctx)
		}
		ctx.Post, idiffs = d.Observe(spec.Buckets, spec.Keys)
		hidden, err := DumpHidden(context.Background(), w.RawDB, w.FSDirs)
		if err != nil {
			res.Trace = "dump: " + err.Error()
			return
		}
		if j.Op != nil {
			res.Diffs = append(res.Diffs, idiffs...)
			res.Diffs = append(res.Diffs, DiffObs(m.Observe(spec.Buckets, spec.Keys), ctx.Post)...)
			// model and implementation disagree about the result or the state reached: successors of
			// this state would only repeat the disagreement. Diffs of the other oracles (immutability,
			// no-trace, Extra) are verdicts about this step and do not make the state unusable.
			res.Diverged = res.Diverged || len(res.Diffs) > 0
			if spec.Immutability {
				res.Diffs = append(res.Diffs, immutabilityDiffs(ctx)...)
			}
			if spec.NoTrace && ctx.ImplR.Err != "" {
				postDB, _ := DumpHidden(context.Background(), w.RawDB, nil)
				res.Diffs = append(res.Diffs, NoTraceDiffs(ctx, preHidden, postDB)...)
			}
			if spec.Extra != nil {
				res.Diffs = append(res.Diffs, spec.Extra(ctx)...)
			}
			for _, df := range res.Diffs {
				if k := KnownDefectClass(df, ctx); k != "" {
					res.Classes = append(res.Classes, k)
				} else if spec.Classify != nil {
					res.Classes = append(res.Classes, spec.Classify(df, ctx))
				} else {
					res.Classes = append(res.Classes, DefaultClass(df))
				}
			}
		}
		ob, _ := json.Marshal(zeroLastMod(ctx.Post))
		h := sha256.Sum256([]byte(renumberVIDs(string(ob)+"\n"+modelKey(m, spec.Buckets, spec.Keys)) + "\n" + hidden + "\n" + preKey))
		res.Key = hex.EncodeToString(h[:12])
	})
	if spec.Faults && j.Op != nil && res.Trace == "" {
		runFaults(t, spec, j, &res)
	}
	return res
}

// runFaults re-executes the last op of j once per fault site with that site failing.
func runFaults(t *testing.T, spec *Spec, j job, res *stepResult) {
	res.FaultSites = map[string]int{}
	n := 1 // discovered from the record run
	for k := 0; k <= n; k++ {
		k := k
		var inj *fault.Injector
		bubble := func(f func(t *testing.T)) {
			// synctest panics (in this goroutine) when the bubble cannot finish. Two cases are
			// verdicts about the code under test, not harness failures:
			defer func() {
				p := recover()
				if p == nil {
					return
				}
				msg, fired := fmt.Sprint(p), ""
				if inj != nil {
					fired = inj.Fired
				}
				switch {
				case strings.Contains(msg, "main bubble goroutine has exited but blocked goroutines remain"):
					// the operation returned, but goroutines it started stay blocked for ever
					// (a leak; no statement is about goroutines): counted, not judged
					res.FaultLeaks++
				case strings.Contains(msg, "all goroutines in bubble are blocked"):
					// the operation never returns: it can neither succeed nor "fail without trace"
					res.FaultRuns++
					res.FaultSites[fired]++
					res.Diffs = append(res.Diffs, Diff{Class: "notrace", Where: fmt.Sprintf("fault@%d(%s): %s never returns (every goroutine of the operation is blocked)", k, fired, j.Op.Short()), Model: "returns an error", Impl: "deadlock"})
					res.Classes = append(res.Classes, "hang:"+siteKind(fired))
				default:
					panic(p)
				}
			}()
			synctest.Test(t, f)
		}
		bubble(func(t *testing.T) {
			inj = &fault.Injector{}
			w := world.New(world.Config{Stack: j.Stack,
				WrapDB: func(db database.Database) database.Database { return &fault.DB{Inner: db, Inj: inj} },
				WrapPartStore: func(name string, ps partstore.PartStore) partstore.PartStore {
					return &fault.PartStore{Name: name, Inner: ps, Inj: inj}
				}})
			defer w.Destroy()
			defer inj.InstallHooks()()
			d := NewDriver(w.Storage)
			d.WrapBody = func(r io.Reader, size int) io.Reader { return &fault.Body{R: r, Inj: inj, First: (size + 1) / 2} }
			m := NewModel()
			for _, op := range j.Path {
				time.Sleep(spec.Step)
				ri := d.Apply(op, m)
				m.Apply(op, &ri)
			}
			ctx := &StepCtx{Spec: spec, Stack: j.Stack, W: w, D: d, M: m, Path: j.Path, Op: *j.Op}
			ctx.Pre, _ = d.Observe(spec.Buckets, spec.Keys)
			preDB, err := DumpHidden(context.Background(), w.RawDB, nil)
			if err != nil {
				res.Trace = "dump: " + err.Error()
				return
			}
			time.Sleep(spec.Step)
			inj.Arm(k)
			ctx.ImplR = d.Apply(*j.Op, m)
			inj.Disarm()
			if k == 0 {
				n = len(inj.Sites)
				return
			}
			res.FaultRuns++
			res.FaultSites[inj.Fired]++
			if ctx.ImplR.Err == "" {
				return // the failure was absorbed (e.g. a best-effort step): the op is not a failed op
			}
			res.FaultFailed++
			ctx.Post, _ = d.Observe(spec.Buckets, spec.Keys)
			postDB, err := DumpHidden(context.Background(), w.RawDB, nil)
			if err != nil {
				res.Trace = "dump: " + err.Error()
				return
			}
			var diffs []Diff
			if spec.FaultOracle != nil {
				diffs = spec.FaultOracle(ctx, preDB, postDB)
			} else {
				diffs = NoTraceDiffs(ctx, preDB, postDB)
			}
			for _, df := range diffs {
				df.Where = fmt.Sprintf("fault@%d(%s): %s", k, inj.Fired, df.Where)
				res.Diffs = append(res.Diffs, df)
				res.Classes = append(res.Classes, df.Class+":"+siteKind(inj.Fired))
			}
		})
		if res.Trace != "" {
			return
		}
	}
}

func siteKind(site string) string {
	if i := strings.IndexByte(site, '#'); i >= 0 {
		site = site[:i]
	}
	if i := strings.IndexByte(site, '.'); i >= 0 && !strings.HasPrefix(site, "db.") && !strings.HasPrefix(site, "tx.") && !strings.HasPrefix(site, "body.") {
		site = "partstore" + site[i:]
	}
	return site
}

// NoTraceDiffs: a failed operation leaves the API-visible state and the database as they were.
func NoTraceDiffs(c *StepCtx, preDB, postDB string) []Diff {
	var out []Diff
	a, _ := json.Marshal(c.Pre)
	b, _ := json.Marshal(c.Post)
	if string(a) != string(b) {
		out = append(out, Diff{Class: "notrace", Where: "api-state after failed " + c.Op.Short() + " (" + c.ImplR.Err + ")", Model: "unchanged", Impl: "changed", Detail: firstDiff(string(a), string(b))})
	}
	if preDB != postDB {
		out = append(out, Diff{Class: "notrace", Where: "database after failed " + c.Op.Short() + " (" + c.ImplR.Err + ")", Model: "unchanged", Impl: "changed", Detail: lineDiff(preDB, postDB)})
	}
	return out
}

func resKey(r Res) string {
	r.RawVID, r.RawUID = "", ""
	for i := range r.Sub {
		r.Sub[i].RawVID, r.Sub[i].RawUID = "", ""
	}
	b, _ := json.Marshal(r)
	return string(b)
}

// KnownDefectClass recognises defects of the unchanged tree that show up under several
// properties (DESIGN.md §6); "" if the diff is not one of them.
func KnownDefectClass(d Diff, c *StepCtx) string {
	// AppendObject in a Suspended bucket extends the *current* version in place even when that
	// version has a real version id (only the null version may be replaced).
	if c.Op.Kind == "Append" {
		if b := c.M.Buckets[c.Op.B]; b != nil && b.Versioning == "Suspended" {
			if cur := b.Find(c.Op.K, "null"); cur != nil && cur.Birth == c.M.Step && cur.From != "" && cur.From != "null" && strings.Contains(d.Where, c.Op.B+"/"+c.Op.K) {
				return "suspended-append-rewrites-non-null-version"
			}
		}
	}
	return ""
}

// DefaultClass is "<class>:<field>" where field is the last dotted component of Where.
func DefaultClass(d Diff) string {
	if d.Class == "immut" && strings.HasPrefix(d.Detail, "cause=") {
		return "immut:lastmod:" + d.Detail[len("cause="):]
	}
	f := d.Where
	if i := strings.LastIndexByte(f, '.'); i >= 0 {
		f = f[i+1:]
	} else if i := strings.IndexByte(f, ' '); i >= 0 {
		f = f[:i]
	}
	return d.Class + ":" + f
}

func firstDiff(a, b string) string {
	n := 0
	for n < len(a) && n < len(b) && a[n] == b[n] {
		n++
	}
	lo := n - 60
	if lo < 0 {
		lo = 0
	}
	hi := func(s string) int {
		if n+100 < len(s) {
			return n + 100
		}
		return len(s)
	}
	return fmt.Sprintf("before ...%s... after ...%s...", a[lo:hi(a)], b[lo:hi(b)])
}

func lineDiff(a, b string) string {
	as, bs := map[string]bool{}, map[string]bool{}
	for _, l := range strings.Split(a, "\n") {
		as[l] = true
	}
	for _, l := range strings.Split(b, "\n") {
		bs[l] = true
	}
	var out []string
	for l := range as {
		if !bs[l] {
			out = append(out, "- "+l)
		}
	}
	for l := range bs {
		if !as[l] {
			out = append(out, "+ "+l)
		}
	}
	sort.Strings(out)
	if len(out) > 8 {
		out = out[:8]
	}
	return strings.Join(out, " ; ")
}

// immutabilityDiffs: every version id present before and after the step must be unchanged in
// content, size, ETag and Last-Modified, unless it is the null version and this step re-created it.
func immutabilityDiffs(c *StepCtx) []Diff {
	var out []Diff
	type id struct{ b, k, v string }
	pre := map[id]OVersion{}
	for _, b := range c.Pre.Buckets {
		for _, v := range b.Versions {
			pre[id{b.Name, v.Key, v.VID}] = v
		}
	}
	// a version id that was there before the step must still be there unless this step deleted
	// exactly that version (the null version may be replaced or removed by unversioned/suspended
	// writes and deletes)
	post := map[id]bool{}
	for _, b := range c.Post.Buckets {
		for _, v := range b.Versions {
			post[id{b.Name, v.Key, v.VID}] = true
		}
	}
	for k, p := range pre {
		if post[k] || k.v == "null" || p.Marker {
			continue
		}
		if c.Op.Kind == "Delete" && c.Op.B == k.b && c.Op.K == k.k && c.Op.V == k.v {
			continue
		}
		if c.Op.Kind == "DeleteBucket" {
			continue
		}
		out = append(out, Diff{Class: "immut", Where: fmt.Sprintf("version %s/%s@%s after %s.disappeared", k.b, k.k, k.v, c.Op.Kind), Model: "still addressable", Impl: "gone"})
	}
	for _, b := range c.Post.Buckets {
		mb := c.M.Buckets[b.Name]
		for _, v := range b.Versions {
			p, ok := pre[id{b.Name, v.Key, v.VID}]
			if !ok || v.Marker != p.Marker {
				continue
			}
			if v.VID == "null" && mb != nil {
				if mv := mb.Find(v.Key, "null"); mv != nil && mv.Birth == c.M.Step {
					continue // legitimately replaced by this unversioned/suspended write
				}
			}
			where := fmt.Sprintf("version %s/%s@%s after %s", b.Name, v.Key, v.VID, c.Op.Kind)
			if v.Marker {
				continue
			}
			if p.BodySHA != v.BodySHA || p.BodyLen != v.BodyLen {
				out = append(out, Diff{Class: "immut", Where: where + ".body", Model: short(p.BodySHA), Impl: short(v.BodySHA)})
			}
			if p.Size != v.Size {
				out = append(out, Diff{Class: "immut", Where: where + ".size", Model: fmt.Sprint(p.Size), Impl: fmt.Sprint(v.Size)})
			}
			if p.ETag != v.ETag {
				out = append(out, Diff{Class: "immut", Where: where + ".etag", Model: p.ETag, Impl: v.ETag})
			}
			if p.LastMod != v.LastMod {
				// cause of the change, for known-finding classification
				cause := "other"
				switch {
				case c.Op.Kind == "PutTagging" || c.Op.Kind == "DeleteTagging":
					cause = "tagging"
				case c.Op.Kind == "Transition":
					cause = "transition"
				case p.Latest && !v.Latest:
					cause = "lost-latest"
				case !p.Latest && v.Latest:
					cause = "became-latest"
				}
				out = append(out, Diff{Class: "immut", Detail: "cause=" + cause, Where: where + ".lastmod", Model: time.Unix(0, p.LastMod).UTC().Format(time.RFC3339Nano), Impl: time.Unix(0, v.LastMod).UTC().Format(time.RFC3339Nano)})
			}
		}
	}
	return out
}

// ServeWorker is the worker-process entry point.
func ServeWorker(t *testing.T) {
	defer world.Cleanup()
	pmap.Serve(func(raw json.RawMessage) (any, error) {
		var j job
		if err := json.Unmarshal(raw, &j); err != nil {
			return nil, err
		}
		r := RunStep(t, j)
		return r, nil
	})
}

// ---------------------------------------------------------------------------------------------
// Coordinator: level-synchronous BFS.
// ---------------------------------------------------------------------------------------------

type state struct {
	Path  []Op
	Hints []Res
}

type Search struct {
	Spec     *Spec
	Stacks   []string
	Seeds    [][]Op
	Depth    int
	DepthFor map[string]int // per-stack override of Depth
	Run      *ev.Run
	TestRun  string // -test.run pattern of the worker test
	Workers  int
	MaxLevel int // max frontier size per level (0 = unlimited); exceeding marks exhaustive=false
	// Until (optional) ends this search before the run's deadline, leaving budget for other parts of the check.
	Until time.Time

	States, Transitions int
	Outcomes            map[string]int
	Unasserted          map[string]int
	Pruned              int
	DepthDone           map[string]int
	FaultRuns           int
	FaultFailed         int
	FaultLeaks          int
	FaultSites          map[string]int
}

func (s *Search) replayModel(st state) *Model {
	m := NewModel()
	for i, op := range st.Path {
		var h *Res
		if i < len(st.Hints) {
			h = &st.Hints[i]
		}
		if op.Kind == "Remap" || op.Kind == "WorkerStep" || s.Spec.EnvOps[op.Kind] != nil {
			m.Step++
			continue
		}
		m.Apply(op, h)
	}
	return m
}

// Explore runs the BFS for every stack.
func (s *Search) Explore() {
	s.Outcomes = map[string]int{}
	s.Unasserted = map[string]int{}
	s.DepthDone = map[string]int{}
	if s.Workers == 0 {
		s.Workers = 16
	}
	pool := &pmap.Pool{Kind: "sx", TestRun: s.TestRun, N: s.Workers}
	for _, stack := range s.Stacks {
		seen := map[string]bool{}
		var frontier []state
		// seeds: validate by running them as paths (key only)
		seeds := s.Seeds
		if len(seeds) == 0 {
			seeds = [][]Op{{}}
		}
		for _, seed := range seeds {
			st := state{}
			ok := true
			lastKey := ""
			// execute the seed op by op so that hints are recorded and every seed step is checked too
			for _, op := range seed {
				op := op
				var r stepResult
				var jerr error
				pool.Map([]any{job{Spec: s.Spec.Name, Stack: stack, Path: st.Path, Hints: st.Hints, Op: &op}}, func(_ int, raw json.RawMessage, err error) {
					if err != nil {
						jerr = err
						return
					}
					jerr = json.Unmarshal(raw, &r)
				})
				s.Transitions++
				if jerr != nil || r.Trace != "" {
					s.harnessError(stack, st, &op, fmt.Sprint(jerr, r.Trace))
					ok = false
					break
				}
				if !s.judge(stack, st, op, r) {
					ok = false
					break
				}
				st = state{Path: append(append([]Op{}, st.Path...), op), Hints: append(append([]Res{}, st.Hints...), r.Res)}
				lastKey = r.Key
			}
			if ok {
				// only the seed's final state counts as visited: its intermediate states are not
				// expanded here and must stay reachable from the other seeds
				if lastKey != "" {
					seen[lastKey] = true
				}
				frontier = append(frontier, st)
			}
		}
		s.States += len(seen)
		if len(seeds) == 1 && len(seeds[0]) == 0 {
			s.States++ // the initial state
		}
		maxDepth := s.Depth
		if d, ok := s.DepthFor[stack]; ok {
			maxDepth = d
		}
		for depth := 1; depth <= maxDepth; depth++ {
			if s.expired() {
				s.Run.Exhaustive = false
				s.Run.Note("stack %s: deadline reached before depth %d", stack, depth)
				break
			}
			var jobs []any
			type ref struct {
				st state
				op Op
			}
			var refs []ref
			for _, st := range frontier {
				m := s.replayModel(st)
				for _, op := range s.Spec.Alphabet(m, stack) {
					op := op
					jobs = append(jobs, job{Spec: s.Spec.Name, Stack: stack, Path: st.Path, Hints: st.Hints, Op: &op})
					refs = append(refs, ref{st, op})
				}
			}
			if len(jobs) == 0 {
				s.DepthDone[stack] = maxDepth
				break
			}
			var next []state
			cut := false
			// the level is processed in chunks so that the deadline is honoured inside a large level
			const chunk = 4096
			partial := false
			for base := 0; base < len(jobs); base += chunk {
				if base > 0 && s.expired() {
					partial = true
					s.Run.Exhaustive = false
					s.Run.Note("stack %s: deadline reached inside depth %d after %d of %d transitions (depth %d is complete)", stack, depth, base, len(jobs), depth-1)
					break
				}
				end := min(base+chunk, len(jobs))
				base := base
				pool.Map(jobs[base:end], func(i int, raw json.RawMessage, err error) {
					s.Transitions++
					rf := refs[base+i]
					if err != nil {
						s.harnessError(stack, rf.st, &rf.op, err.Error())
						return
					}
					var r stepResult
					if err := json.Unmarshal(raw, &r); err != nil {
						s.harnessError(stack, rf.st, &rf.op, err.Error())
						return
					}
					if r.Trace != "" {
						s.harnessError(stack, rf.st, &rf.op, r.Trace)
						return
					}
					if !s.judge(stack, rf.st, rf.op, r) {
						return
					}
					if !seen[r.Key] {
						seen[r.Key] = true
						s.States++
						next = append(next, state{Path: append(append([]Op{}, rf.st.Path...), rf.op), Hints: append(append([]Res{}, rf.st.Hints...), r.Res)})
					}
				})
			}
			if partial {
				break
			}
			s.DepthDone[stack] = depth
			// deterministic order of the next frontier (completion order varies)
			sort.Slice(next, func(a, b int) bool { return PathString(next[a].Path) < PathString(next[b].Path) })
			if s.MaxLevel > 0 && len(next) > s.MaxLevel {
				next = next[:s.MaxLevel]
				cut = true
			}
			if cut {
				s.Run.Exhaustive = false
				s.Run.Note("stack %s: frontier capped at %d states after depth %d", stack, s.MaxLevel, depth)
			}
			frontier = next
			if len(frontier) == 0 {
				break
			}
		}
		if len(frontier) > 0 {
			s.Run.AddSample(map[string]any{"stack": stack, "path": PathString(frontier[len(frontier)/2].Path)})
		}
	}
}

func (s *Search) expired() bool {
	return s.Run.Expired() || (!s.Until.IsZero() && time.Now().After(s.Until))
}

var harnessErrors int

func (s *Search) harnessError(stack string, st state, op *Op, msg string) {
	harnessErrors++
	// A stalled or crashed worker is a finding only for properties that promise no panics; the
	// generic engine reports it as a harness error (exit 2) so that it is never mistaken for a pass.
	s.Run.Note("HARNESS-ERROR stack=%s path=%s op=%s: %s", stack, PathString(st.Path), op.Short(), msg)
	s.Run.Report(ev.Violation{Class: "harness-error", Summary: fmt.Sprintf("stack=%s path=[%s] op=%s: %s", stack, PathString(st.Path), op.Short(), msg),
		Replay: map[string]any{"spec": s.Spec.Name, "stack": stack, "path": st.Path, "hints": st.Hints, "op": op}})
}

// judge records the outcome of a transition; returns whether the successor may be expanded.
func (s *Search) judge(stack string, st state, op Op, r stepResult) bool {
	out := op.Kind + ":" + orOK(r.Res.Err)
	s.Outcomes[out]++
	s.FaultRuns += r.FaultRuns
	s.FaultFailed += r.FaultFailed
	s.FaultLeaks += r.FaultLeaks
	if s.FaultSites == nil {
		s.FaultSites = map[string]int{}
	}
	for k, v := range r.FaultSites {
		s.FaultSites[siteKind(k)] += v
	}
	if len(r.Diffs) == 0 {
		return true
	}
	for i, d := range r.Diffs {
		cls := r.Classes[i]
		if s.Spec.Assert[d.Class] {
			s.Run.Report(ev.Violation{Class: cls,
				Summary: fmt.Sprintf("stack=%s after [%s] then %s: %s", stack, PathString(st.Path), op.Short(), d.String()),
				Replay:  map[string]any{"spec": s.Spec.Name, "stack": stack, "path": st.Path, "hints": st.Hints, "op": op, "diffs": r.Diffs}})
		} else {
			s.Unasserted[cls]++
		}
	}
	if !r.Diverged {
		return true
	}
	s.Pruned++
	return false
}

// Coverage fills the evidence counters.
func (s *Search) Coverage() {
	c := s.Run.Cov
	c["states"] = s.States
	c["transitions"] = s.Transitions
	c["traces_validated_against_impl"] = s.Transitions
	c["max_depth_completed"] = s.DepthDone
	c["outcomes"] = s.Outcomes
	c["distinct_outcomes"] = len(s.Outcomes)
	c["stacks"] = s.Stacks
	c["pruned_successors_after_disagreement"] = s.Pruned
	if s.FaultRuns > 0 {
		c["fault_runs"] = s.FaultRuns
		c["fault_runs_in_which_the_op_failed"] = s.FaultFailed
		if s.FaultLeaks > 0 {
			c["fault_runs_after_which_goroutines_of_the_operation_stayed_blocked"] = s.FaultLeaks
		}
		c["fault_site_kinds"] = s.FaultSites
	}
	if len(s.Unasserted) > 0 {
		c["disagreements_in_aspects_asserted_by_other_properties"] = s.Unasserted
	}
	c["rule"] = "level-synchronous BFS over operation sequences; every transition = fresh world, replay of the shortest path on the real storage, one more op, full API observation compared with the reference model; states deduplicated by canonical key (API observation + model write order + full SQLite dump + part directories, opaque ids/timestamps rank-compressed)"
}

// Replay re-executes one recorded transition (from a replay file) and prints its diffs.
func Replay(t *testing.T, raw json.RawMessage) []Diff {
	var rp struct {
		Replay job `json:"replay"`
	}
	if err := json.Unmarshal(raw, &rp); err != nil {
		t.Fatal(err)
	}
	r := RunStep(t, rp.Replay)
	return r.Diffs
}

// SpecByName returns a registered spec.
func SpecByName(n string) *Spec {
	s := specs[n]
	if s == nil {
		panic("unknown spec " + n)
	}
	return s
}

// Merge adds the counters of another search (same Run) into s.
func (s *Search) Merge(o *Search) {
	s.States += o.States
	s.Transitions += o.Transitions
	s.Pruned += o.Pruned
	s.FaultRuns += o.FaultRuns
	s.FaultFailed += o.FaultFailed
	s.FaultLeaks += o.FaultLeaks
	for k, v := range o.FaultSites {
		if s.FaultSites == nil {
			s.FaultSites = map[string]int{}
		}
		s.FaultSites[k] += v
	}
	for k, v := range o.Outcomes {
		s.Outcomes[k] += v
	}
	for k, v := range o.Unasserted {
		s.Unasserted[k] += v
	}
	for k, v := range o.DepthDone {
		s.DepthDone[o.Spec.Name+"/"+k] = v
	}
	s.Stacks = append(append([]string{}, s.Stacks...), o.Stacks...)
}
